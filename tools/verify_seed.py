#!/usr/bin/env python3
"""verify_seed.py <seed-dir> [...]: confirms a seeded change in a scratch worktree of /repo:
 demo passes on the unmodified tree; with patch.diff applied the tree builds, the root
 module's existing tests pass, and the demo fails.  Writes <seed-dir>/VERIFY.json."""
import sys, os, re, subprocess, json, glob, shutil, tempfile
ENV = dict(os.environ, GOFLAGS="-mod=mod", GOPROXY="off", GOSUMDB="off", GOWORK="off")
def run(cmd, cwd, timeout=900):
    try:
        p = subprocess.run(cmd, cwd=cwd, env=ENV, shell=True, capture_output=True, text=True, timeout=timeout)
        return p.returncode, (p.stdout + p.stderr)[-3000:]
    except subprocess.TimeoutExpired:
        return 124, "timeout"
def verify(d):
    d = os.path.abspath(d)
    txt = open(os.path.join(d, "DEMO_PATH.txt")).read()
    m = re.search(r"go test [^\n]*-run\s+'?(\S+?)'?\s+(?:-v\s+)?(\S+)", txt)
    if not m: return {"ok": False, "why": "no run command"}
    runre, pkg = m.group(1), m.group(2)
    pkgdir = pkg.strip("./") 
    wt = tempfile.mkdtemp(prefix="seedverify-")
    os.rmdir(wt)
    res = {"dir": d, "run": "go test -vet=off -count=1 -run '%s' %s" % (runre, pkg)}
    try:
        rc, out = run("git -C /repo worktree add -q --detach %s %s" % (wt, os.environ.get("SEED_BASE", "HEAD")), "/")
        if rc: return {"ok": False, "why": "worktree: " + out}
        demos = glob.glob(os.path.join(d, "*_test.go"))
        os.makedirs(os.path.join(wt, pkgdir), exist_ok=True)
        for f in demos: shutil.copy(f, os.path.join(wt, pkgdir, os.path.basename(f)))
        rc, out = run(res["run"], wt)
        res["demo_unmodified"] = "pass" if rc == 0 else "FAIL"
        if rc: res["demo_unmodified_out"] = out
        rc, out = run("git apply %s" % os.path.join(d, "patch.diff"), wt)
        if rc: res["apply"] = out; res["ok"] = False; return res
        rc, out = run("go build ./...", wt); res["build"] = "ok" if rc == 0 else out
        rc, out = run(res["run"], wt)
        res["demo_patched"] = "fail" if rc != 0 else "PASSES"
        res["demo_patched_out"] = out[-1200:]
        for f in demos: os.remove(os.path.join(wt, pkgdir, os.path.basename(f)))
        rc, out = run("go test -vet=off -count=1 ./...", wt); res["suite_patched"] = "pass" if rc == 0 else "FAIL"
        if rc: res["suite_out"] = out
        res["ok"] = res["demo_unmodified"] == "pass" and res["build"] == "ok" and res["demo_patched"] == "fail" and res["suite_patched"] == "pass"
        return res
    finally:
        run("git -C /repo worktree remove --force %s" % wt, "/")
        shutil.rmtree(wt, ignore_errors=True)
for d in sys.argv[1:]:
    try:
        r = verify(d)
    except Exception as e:
        r = {"ok": False, "why": "verify_seed: %r" % e}
    json.dump(r, open(os.path.join(d, "VERIFY.json"), "w"), indent=1)
    print(d, "OK" if r.get("ok") else "NOT-OK", {k: v for k, v in r.items() if k in ("demo_unmodified", "build", "demo_patched", "suite_patched", "why")})
