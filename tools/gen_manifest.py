#!/usr/bin/env python3
"""Regenerates /verif/MANIFEST.json from the rules registered in bin/risorcheck
(claimed properties) and the table below (texts).  Run after adding rules."""
import json, subprocess, os, sys
here = os.path.dirname(os.path.dirname(os.path.abspath(__file__)))
out = subprocess.run([os.path.join(here, "bin/risorcheck"), "-list"], capture_output=True, text=True, check=True).stdout
rules = {}
for line in out.splitlines():
    pid, rid, title = line.split("\t")
    rules.setdefault(pid, []).append((rid, title))

TEXT = json.load(open(os.path.join(here, "tools/manifest_text.json")))
checks, na = [], []
for i in range(1, 21):
    pid = "C%02d" % i
    t = TEXT.get(pid, {})
    if pid in rules and not t.get("withdrawn"):
        rl = "; ".join("%s %s" % r for r in rules[pid])
        checks.append({
            "property_id": pid,
            "quick_cmd": "./check.sh %s quick" % pid,
            "thorough_cmd": "./check.sh %s thorough" % pid,
            "evidence_file": "/verif/evidence/%s.json" % pid,
            "replay_cmd_template": "./check.sh %s quick -explain {path}" % pid,
            "engine": "risorcheck",
            "level_claimed": {
                "category": "other",
                "text": t.get("level", "Structural necessary conditions of the property, decided exhaustively over the type-checked source of /repo (every enumerated obligation is decided, none sampled). The behavioural remainder of the property is NOT decided.") + " Rules: " + rl,
                "design_ref": "DESIGN.md §3 " + pid,
            },
            "level_note": t.get("note", "Trusted: go/types, x/tools (cfg, ssa, callgraph VTA over CHA), the standard-library knowledge tables in the rule file. Reflection is opaque."),
            "technique": t.get("technique", "static analysis: custom type-resolved AST/CFG/SSA rules over /repo"),
        })
    else:
        na.append({"property_id": pid, "reason": t.get("na", "structural rule designed (DESIGN.md §3 %s) but not implemented yet; no weaker proxy is claimed" % pid)})
m = {
    "version": 1,
    "setup_cmd": "sh ./setup.sh",
    "hooks": {
        "guard": "verif",
        "enable": "none needed: the checks are static and read /repo's working tree as it is (no instrumentation, no build tag)",
        "baseline_off_cmd": "sh /verif/tools/baseline.sh",
        "source_commits": [],
        "add_only": True,
    },
    "engines": [{
        "name": "risorcheck",
        "path": "/verif/analyzers",
        "serves_properties": sorted(rules),
        "kind_free_text": "Go program on go/packages + go/types + go/cfg + go/ssa + callgraph (x/tools v0.29.0, vendored): repository-specific static rules; nothing from /repo is executed",
    }],
    "checks": checks,
    "not_applicable": na,
    "notes": "Technique family: static analysis only. Exit 0 = all enumerated obligations discharged or listed in known_findings.jsonl (KNOWN-FINDING lines); exit 1 = VIOLATION; exit 2 = UNDECIDED (load failure, unresolved anchor, vacuity guard, checker fault). Thorough = quick + other build configurations + seeded-change self-test (/verif/seeded).",
}
json.dump(m, open(os.path.join(here, "MANIFEST.json"), "w"), indent=1)
print("claimed:", [c["property_id"] for c in checks]); print("not_applicable:", [n["property_id"] for n in na])
