#!/usr/bin/env python3
"""make_seed_prompts.py <outdir> <letter1> <letter2> [worktree-root]: writes one prompt file per property for a
wave of seeding sub-agents (each gets only the property text, its worktree path and the mechanisms already used)."""
import json, os, sys
outdir, l1, l2 = sys.argv[1], sys.argv[2], sys.argv[3]
wtroot = sys.argv[4] if len(sys.argv) > 4 else "/root/seedwt"
tmpl = open("/verif/tools/seed_prompt.tmpl").read()
os.makedirs(outdir, exist_ok=True)
for l in open("/verif/properties.jsonl"):
    p = json.loads(l); pid = p["id"]
    prev = []
    import glob
    for mp in sorted(glob.glob("/verif/seeded/%s-*/meta.json" % pid)):
        if "-fix-" in mp:
            continue
        prev.append(json.load(open(mp)).get("summary", "")[:200])
    out = "%s/out-%s" % (outdir, pid); os.makedirs(out, exist_ok=True)
    t = tmpl.replace("__WT__", "%s/%s" % (wtroot, pid)).replace("__OUT__", out).replace("__PROP__", json.dumps(p, indent=1))
    t = t.replace('call them "a" and "b"', 'call them "%s" and "%s"' % (l1, l2)).replace("for each of a and b, in %s/a and %s/b" % (out, out), "for each of %s and %s, in %s/%s and %s/%s" % (l1, l2, out, l1, out, l2)).replace("a short summary of a and b", "a short summary of %s and %s" % (l1, l2))
    t += "\n\nEarlier seeders already used the following mechanisms for this property; yours must be DIFFERENT from all of these (different code site and different mechanism). Prefer a clause of the property statement, a code path, a package or an anchor file that none of them touched. Realistic developer slips are what is wanted: an off-by-one or wrong boundary, a condition that is subtly too weak or too strong, an unhandled variant in one of several sibling implementations, two steps done in the wrong order, a missed update of a derived field, a wrong default, state that leaks between two uses, an error path that skips a step, a copy that became an alias, a lookup by the wrong key:\n" + "\n".join(" - " + x for x in prev) + "\n\nAlso note: `git stash` is shared between all worktrees of this repository and other seeders are working concurrently in sibling worktrees - do NOT use git stash; flip your change with `git diff > /some/file.patch; git checkout -- .; ...; git apply /some/file.patch` instead.\n"
    open("%s/prompt-%s.txt" % (outdir, pid), "w").write(t)
print("prompts written to", outdir)
