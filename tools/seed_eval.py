#!/usr/bin/env python3
"""seed_eval.py [seed ...]: runs each seeded change against the check of its property.
For each seed: base = /repo HEAD if the patch applies there, else the pinned snapshot d7afc3f.
A scratch worktree of the base is created under /tmp, the check is run on it (violation keys B),
the patch is applied, the check is run again (keys P); detected = P - B non-empty.
Writes seeded/<id>/detection.json and prints a table. Worktrees are removed afterwards."""
import json, os, subprocess, sys, tempfile, shutil, glob
V = "/verif"
def sh(cmd, cwd=None):
    return subprocess.run(cmd, shell=True, cwd=cwd, capture_output=True, text=True)
def keys(prop, repo):
    r = sh(f"{os.environ.get('RISORCHECK', V + '/bin/risorcheck')} -sub -property {prop} -tier quick -repo {repo} -verif {V}")
    try: out = json.loads(r.stdout)
    except Exception: return None, "checker output unreadable: " + r.stderr[-300:]
    ks = {o["Key"] if "Key" in o else o["key"] for o in out.get("Obs") or [] if not o.get("ok", o.get("OK")) }
    und = out.get("Undecided") or []
    return ks, ("; ".join(und) if und else "")
sh(f"sh {V}/setup.sh")
seeds = sys.argv[1:] or sorted(os.path.basename(os.path.dirname(p)) for p in glob.glob(f"{V}/seeded/*/meta.json"))
rows = []
for sd in seeds:
    d = f"{V}/seeded/{sd}"
    meta = json.load(open(f"{d}/meta.json"))
    prop = meta["property"]
    patch = f"{d}/patch.diff"
    cands = ["HEAD"] + [c for c in [meta.get("base"), "0531582", "03e99e9", "d7afc3f"] if c]
    done = False
    for base in cands:
        wt = tempfile.mkdtemp(prefix="seedeval-"); os.rmdir(wt)
        try:
            sh(f"git -C /repo worktree add -q --detach {wt} {base}")
            if sh(f"git apply --check {patch}", cwd=wt).returncode != 0:
                continue
            b, bu = keys(prop, wt)
            sh(f"git apply {patch}", cwd=wt)
            p_, pu = keys(prop, wt)
            if pu and "type-check errors" in pu and base != cands[-1]:
                continue  # applies textually but no longer compiles on this base
            if b is None or p_ is None:
                rows.append((sd, prop, base, "checker failed: %s %s" % (bu, pu), [])); done = True; break
            new = sorted(p_ - b)
            status = "DETECTED" if new else "missed"
            if pu and not bu: status += " (UNDECIDED on patched tree: %s)" % pu[:200]
            rows.append((sd, prop, base, status, new))
            json.dump({"property": prop, "base": base, "status": status, "new_violation_keys": new}, open(f"{d}/detection.json", "w"), indent=1)
            done = True; break
        finally:
            sh(f"git -C /repo worktree remove --force {wt}"); shutil.rmtree(wt, ignore_errors=True)
    if not done:
        rows.append((sd, prop, "-", "patch does not apply", []))
for sd, prop, base, status, new in rows:
    print(f"{sd:8} {prop} base={base:8} {status}")
    for k in new[:4]: print("           +", k[:200])
