#!/usr/bin/env python3
"""seed_eval.py [seed ...]: runs each seeded change against the check of its property.
For each seed: base = /repo HEAD if the patch applies there, else the pinned snapshot d7afc3f.
A scratch worktree of the base is created under /tmp, the check is run on it (violation keys B),
the patch is applied, the check is run again (keys P); detected = P - B non-empty.
Writes seeded/<id>/detection.json and prints a table. Worktrees are removed afterwards."""
import json, os, subprocess, sys, tempfile, shutil, glob
V = "/verif"
def sh(cmd, cwd=None):
    return subprocess.run(cmd, shell=True, cwd=cwd, capture_output=True, text=True)
def keys(prop, repo):
    r = sh(f"{V}/bin/risorcheck -sub -property {prop} -tier quick -repo {repo} -verif {V}")
    try: out = json.loads(r.stdout)
    except Exception: return None, "checker output unreadable: " + r.stderr[-300:]
    ks = {o["Key"] if "Key" in o else o["key"] for o in out.get("Obs") or [] if not o.get("ok", o.get("OK")) }
    und = out.get("Undecided") or []
    return ks, ("; ".join(und) if und else "")
sh(f"sh {V}/setup.sh")
seeds = sys.argv[1:] or sorted(os.path.basename(os.path.dirname(p)) for p in glob.glob(f"{V}/seeded/*/meta.json"))
rows = []
for sd in seeds:
    d = f"{V}/seeded/{sd}"
    meta = json.load(open(f"{d}/meta.json"))
    prop = meta["property"]
    patch = f"{d}/patch.diff"
    base = "HEAD"
    if sh(f"git -C /repo apply --check {patch}").returncode != 0:
        base = "d7afc3f"
        for cand in [meta.get("base"), "0531582", "03e99e9"]:
            if not cand: continue
            t = tempfile.mkdtemp(prefix="seedbase-"); os.rmdir(t)
            sh(f"git -C /repo worktree add -q --detach {t} {cand}")
            ok = sh(f"git apply --check {patch}", cwd=t).returncode == 0
            sh(f"git -C /repo worktree remove --force {t}"); shutil.rmtree(t, ignore_errors=True)
            if ok:
                base = cand; break
    wt = tempfile.mkdtemp(prefix="seedeval-"); os.rmdir(wt)
    try:
        sh(f"git -C /repo worktree add -q --detach {wt} {base}")
        b, bu = keys(prop, wt)
        a = sh(f"git apply {patch}", cwd=wt)
        if a.returncode != 0:
            rows.append((sd, prop, base, "patch does not apply", [])); continue
        p_, pu = keys(prop, wt)
        if b is None or p_ is None:
            rows.append((sd, prop, base, "checker failed: %s %s" % (bu, pu), [])); continue
        new = sorted(p_ - b)
        status = "DETECTED" if new else "missed"
        if pu and not bu: status += " (UNDECIDED on patched tree: %s)" % pu[:200]
        rows.append((sd, prop, base, status, new))
        json.dump({"property": prop, "base": base, "status": status, "new_violation_keys": new}, open(f"{d}/detection.json", "w"), indent=1)
    finally:
        sh(f"git -C /repo worktree remove --force {wt}"); shutil.rmtree(wt, ignore_errors=True)
for sd, prop, base, status, new in rows:
    print(f"{sd:8} {prop} base={base:8} {status}")
    for k in new[:4]: print("           +", k[:200])
