#!/usr/bin/env python3
"""benign_eval.py <patch-dir> [...]: false-alarm measurement.  Each <patch-dir> holds patch.diff (+ meta.json), a change that is
meant to PRESERVE behaviour (refactoring, correct optimisation, additive feature).  The patch is applied to a scratch worktree of
/repo HEAD, it is confirmed that the tree builds and the root module's tests pass, and ALL twenty property checks are run on it.
Every violation key that the unchanged tree does not have, and every rule that becomes UNDECIDED, is printed: each is either a
false alarm of the rule (to be corrected) or a behaviour change the author of the patch did not see (to be shown with an input).
Writes <patch-dir>/benign_eval.json."""
import json, os, subprocess, sys, tempfile, shutil
from concurrent.futures import ThreadPoolExecutor
V = "/verif"
PROPS = ["C%02d" % i for i in range(1, 21)]
ENV = dict(os.environ, GOFLAGS="-mod=mod", GOPROXY="off", GOSUMDB="off", GOWORK="off")
def sh(cmd, cwd=None, env=None):
    return subprocess.run(cmd, shell=True, cwd=cwd, capture_output=True, text=True, env=env)
def keys(prop, repo):
    r = sh(f"{os.environ.get('RISORCHECK', V + '/bin/risorcheck')} -sub -property {prop} -tier quick -repo {repo} -verif {V}")
    try: out = json.loads(r.stdout)
    except Exception: return None, ["checker output unreadable: " + r.stderr[-200:]]
    ks = {o.get("Key", o.get("key")) for o in out.get("Obs") or [] if not o.get("ok", o.get("OK")) and not o.get("Known", o.get("known"))}
    return ks, (out.get("Undecided") or [])
base = {}
def base_keys():
    wt = tempfile.mkdtemp(prefix="bbase-"); os.rmdir(wt)
    sh(f"git -C /repo worktree add -q --detach {wt} HEAD")
    with ThreadPoolExecutor(max_workers=6) as ex:
        for p, r in zip(PROPS, ex.map(lambda p: keys(p, wt), PROPS)): base[p] = r
    sh(f"git -C /repo worktree remove --force {wt}"); shutil.rmtree(wt, ignore_errors=True)
def one(d):
    d = os.path.abspath(d)
    wt = tempfile.mkdtemp(prefix="beval-"); os.rmdir(wt)
    sh(f"git -C /repo worktree add -q --detach {wt} HEAD")
    try:
        if sh(f"git apply {d}/patch.diff", cwd=wt).returncode != 0:
            return d, "patch does not apply to HEAD", {}
        if os.environ.get("SKIP_TESTS") != "1":
            r = sh("go build ./... && go test -vet=off -count=1 ./... 2>&1 | grep -v '^ok\\|no test files' | head -20", cwd=wt, env=ENV)
            if r.returncode != 0 or "FAIL" in r.stdout:
                return d, "does not build or tests fail: " + (r.stdout + r.stderr)[-400:], {}
        res = {}
        for p in PROPS:
            ks, und = keys(p, wt)
            if ks is None: res[p] = ["<checker failed> " + und[0]]; continue
            new = sorted(ks - (base[p][0] or set()))
            if und and not base[p][1]: new.append("UNDECIDED: " + "; ".join(und)[:300])
            if new: res[p] = new
        return d, "ok", res
    finally:
        sh(f"git -C /repo worktree remove --force {wt}"); shutil.rmtree(wt, ignore_errors=True)
sh(f"sh {V}/setup.sh")
base_keys()
with ThreadPoolExecutor(max_workers=4) as ex:
    for d, st, res in ex.map(one, sys.argv[1:]):
        n = sum(len(v) for v in res.values())
        print(f"{d} {st} alarms={n}")
        for p, v in sorted(res.items()):
            for k in v: print(f"      {p}: {k[:260]}")
        json.dump({"status": st, "alarms": res}, open(os.path.join(d, "benign_eval.json"), "w"), indent=1)
