#!/usr/bin/env python3
"""record_fixed.py <check-output> <commit> <what> <evidence> [key-substring ...]
Appends a 'fixed' entry to known_findings.jsonl for every 'violation:' line of a check run on the
pre-fix tree whose key contains one of the substrings (all of them when none is given)."""
import sys, json, re
out, commit, what, evidence = sys.argv[1:5]
subs = sys.argv[5:]
have = set(json.loads(l)['key'] for l in open('/verif/known_findings.jsonl'))
n = 0
with open('/verif/known_findings.jsonl', 'a') as f:
    for l in open(out):
        m = re.match(r'violation: ((C\d+)-R\d+)\|(\S.*?) at ', l)
        if not m:
            m = re.match(r'violation: ((C\d+)-R\d+)\|(.*?): ', l)
            if not m: continue
        rule, prop = m.group(1), m.group(2)
        key = rule + '|' + m.group(3)
        if subs and not any(s in key for s in subs): continue
        if key in have: continue
        have.add(key)
        f.write(json.dumps({"status": "fixed", "property": prop, "rule": rule, "key": key, "what": what,
                            "commit": commit, "evidence": evidence}, ensure_ascii=False, separators=(',', ':')) + '\n')
        n += 1
print(n, 'entries')
