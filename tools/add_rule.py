#!/usr/bin/env python3
"""add_rule.py <Cxx> <title> <floor> <run-expr>: appends a rule to the property's Rules list (next free number)."""
import sys, re, glob
pid, title, floor, run = sys.argv[1:5]
for f in glob.glob('/verif/analyzers/rules/*.go'):
    s = open(f).read()
    ids = [int(m) for m in re.findall(r'\{ID: "%s-R(\d+)"' % pid, s)]
    if not ids: continue
    nxt = max(ids) + 1
    lines = s.split('\n')
    last = max(i for i, l in enumerate(lines) if re.search(r'\{ID: "%s-R\d+"' % pid, l))
    indent = re.match(r'\s*', lines[last]).group(0)
    lines.insert(last + 1, '%s{ID: "%s-R%d", Title: "%s", Floor: %s, Run: %s},' % (indent, pid, nxt, title, floor, run))
    open(f, 'w').write('\n'.join(lines))
    print(pid, 'R%d' % nxt, f)
    break
else:
    sys.exit("property not found")
