#!/bin/sh
# Runs every claimed check (quick by default) and prints one summary line per property.
tier=${1:-quick}
cd "$(dirname "$0")/.."
sh ./setup.sh >/dev/null 2>&1
bad=0
for i in $(seq -w 1 20); do
  s=$(date +%s)
  out=$(./check.sh C$i $tier 2>&1); rc=$?
  e=$(date +%s)
  printf "C%s rc=%d %3ds known=%d viol=%d\n" $i $rc $((e-s)) "$(echo "$out"|grep -c '^KNOWN-FINDING')" "$(echo "$out"|grep -c '^VIOLATION')"
  [ $rc -ne 0 ] && bad=1
done
exit $bad
