#!/usr/bin/env python3
"""Runs the pinned suite (tools/baseline.sh) and compares with BASELINE.json stable_pass."""
import json, subprocess, sys
want = set(json.load(open('/root/.vp/BASELINE.json'))['stable_pass'])
import os
env = {k: v for k, v in os.environ.items() if k not in ("GOFLAGS", "GOWORK", "GOPROXY", "GOSUMDB", "GOTOOLCHAIN")}
p = subprocess.run(["sh", "/verif/tools/baseline.sh"], capture_output=True, text=True, env=env)
passed = set()
for line in p.stdout.splitlines():
    try: ev = json.loads(line)
    except Exception: continue
    if ev.get('Action') == 'pass' and ev.get('Test'):
        passed.add(ev['Package'] + '::' + ev['Test'])
missing = sorted(want - passed)
print("stable_pass=%d passed_now=%d missing=%d" % (len(want), len(passed & want), len(missing)))
for m in missing[:40]: print("  MISSING", m)
sys.exit(1 if missing else 0)
