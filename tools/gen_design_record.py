#!/usr/bin/env python3
"""Regenerates the tables of DESIGN.md section 8 (between the GENERATED markers) from
bin/risorcheck -list, known_findings.jsonl and seeded/*/{meta,detection}.json."""
import json, os, subprocess, glob, re
V = "/verif"
out = []
rules = subprocess.run([f"{V}/bin/risorcheck", "-list"], capture_output=True, text=True, check=True).stdout
byp = {}
for line in rules.splitlines():
    pid, rid, title = line.split("\t")
    byp.setdefault(pid, []).append((rid, title))
out.append("### 8.2 Rules as implemented (from `bin/risorcheck -list`)\n")
out.append("| property | rules |\n|---|---|")
for pid in sorted(byp):
    out.append("| %s | %s |" % (pid, "<br>".join("**%s** %s" % r for r in byp[pid])))
kf = [json.loads(l) for l in open(f"{V}/known_findings.jsonl")]
out.append("\n### 8.3 Findings on the pinned tree and their disposition (from `known_findings.jsonl`)\n")
out.append("Fixed in /repo (one `fix:` commit each; the existing 1246 tests pass unedited after every one):\n")
out.append("| commit | property / rule key | what failed | evidence |\n|---|---|---|---|")
seen = set()
for d in kf:
    if d["status"] != "fixed": continue
    out.append("| %s | `%s` | %s | %s |" % (d.get("commit", "?")[:7], d["key"], d["what"].replace("|", "\\|"), d.get("evidence", "").replace("|", "\\|")))
out.append("\nRecorded as known findings (the check prints `KNOWN-FINDING` and exits 0; any other violation of the same rule still fails):\n")
out.append("| rule key | what fails | evidence |\n|---|---|---|")
for d in kf:
    if d["status"] != "known": continue
    out.append("| `%s` | %s | %s |" % (d["key"], d["what"].replace("|", "\\|"), d.get("evidence", "").replace("|", "\\|")))
out.append("\n### 8.4 Seeded changes and which rule reports each (from `seeded/*/detection.json`)\n")
out.append("| seed | origin | change (summary) | status | reported by |\n|---|---|---|---|---|")
for d in sorted(glob.glob(f"{V}/seeded/*/meta.json")):
    sd = os.path.basename(os.path.dirname(d))
    meta = json.load(open(d))
    det = {}
    dp = os.path.join(os.path.dirname(d), "detection.json")
    if os.path.exists(dp): det = json.load(open(dp))
    mw = re.search(r"wave (\d+)", meta.get("origin", ""))
    letters = sd.split("-", 1)[1] if "-" in sd else ""
    guess = {"a": 1, "b": 1, "c": 2, "d": 2, "e": 3, "f": 3}.get(letters, 0) if len(letters) == 1 else 0
    wave = int(mw.group(1)) if mw and int(mw.group(1)) > 2 else (guess or (int(mw.group(1)) if mw else 0))
    origin = "fix reverted" if "-fix-" in sd else ("sub-agent wave %s" % (wave if wave else "?"))
    keys = det.get("new_violation_keys", [])
    rep = "<br>".join("`%s`" % k[:110] for k in keys[:3]) + (" …(+%d)" % (len(keys) - 3) if len(keys) > 3 else "")
    summ = re.sub(r"\s+", " ", meta.get("summary", ""))[:230].replace("|", "\\|")
    out.append("| %s | %s | %s | %s | %s |" % (sd, origin, summ, det.get("status", "not evaluated"), rep))
txt = "\n".join(out) + "\n"
p = f"{V}/DESIGN.md"
s = open(p).read()
b, e = "<!-- BEGIN GENERATED RECORD -->", "<!-- END GENERATED RECORD -->"
if b in s:
    s = s[:s.index(b) + len(b)] + "\n" + txt + s[s.index(e):]
    open(p, "w").write(s)
    print("DESIGN.md tables regenerated:", len(out), "lines")
else:
    print("markers not found")
