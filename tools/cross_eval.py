#!/usr/bin/env python3
"""cross_eval.py [seed ...]: applies each seeded change to a scratch worktree of /repo HEAD and runs ALL property checks on it;
prints, per seed, the properties (other than its own) that report new violation keys or become UNDECIDED.  Used to look for
cross-property false alarms and brittleness (a rule of property X firing/undeciding on a change that does not concern X)."""
import json, os, subprocess, sys, tempfile, shutil, glob
from concurrent.futures import ThreadPoolExecutor
V = "/verif"
PROPS = ["C%02d" % i for i in range(1, 21)]
def sh(cmd, cwd=None):
    return subprocess.run(cmd, shell=True, cwd=cwd, capture_output=True, text=True)
def keys(prop, repo):
    r = sh(f"{os.environ.get('RISORCHECK', V + '/bin/risorcheck')} -sub -property {prop} -tier quick -repo {repo} -verif {V}")
    try: out = json.loads(r.stdout)
    except Exception: return None, ["checker output unreadable"]
    ks = {o.get("Key", o.get("key")) for o in out.get("Obs") or [] if not o.get("ok", o.get("OK")) and not o.get("Known", o.get("known"))}
    return ks, (out.get("Undecided") or [])
base = {}
def base_keys():
    wt = tempfile.mkdtemp(prefix="xbase-"); os.rmdir(wt)
    sh(f"git -C /repo worktree add -q --detach {wt} HEAD")
    for p in PROPS: base[p] = keys(p, wt)
    sh(f"git -C /repo worktree remove --force {wt}")
def one(sd):
    d = f"{V}/seeded/{sd}"
    meta = json.load(open(f"{d}/meta.json")); own = meta["property"]
    wt = tempfile.mkdtemp(prefix="xeval-"); os.rmdir(wt)
    sh(f"git -C /repo worktree add -q --detach {wt} HEAD")
    try:
        if sh(f"git apply {d}/patch.diff", cwd=wt).returncode != 0:
            return sd, own, "patch does not apply to HEAD", {}
        res = {}
        for p in PROPS:
            ks, und = keys(p, wt)
            if ks is None: res[p] = ["<checker failed>"]; continue
            new = sorted(ks - (base[p][0] or set()))
            if und and not base[p][1]: new.append("UNDECIDED: " + "; ".join(und)[:160])
            if new: res[p] = new
        return sd, own, "ok", res
    finally:
        sh(f"git -C /repo worktree remove --force {wt}"); shutil.rmtree(wt, ignore_errors=True)
sh(f"sh {V}/setup.sh")
seeds = sys.argv[1:] or sorted(os.path.basename(os.path.dirname(p)) for p in glob.glob(f"{V}/seeded/*/meta.json") if "-fix-" not in p)
base_keys()
with ThreadPoolExecutor(max_workers=5) as ex:
    for sd, own, st, res in ex.map(one, seeds):
        others = {p: v for p, v in res.items() if p != own}
        print(f"{sd:10} own={own} {st} own_detected={'yes' if own in res else 'no'} others={sorted(others)}")
        for p, v in sorted(others.items()):
            for k in v[:2]: print(f"      {p}: {k[:170]}")
