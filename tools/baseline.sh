#!/bin/sh
# The repository's pinned test suite, exactly as in /root/.vp/BASELINE.json (no build tag is involved: the checks are static).
for m in $(cat /w/out/gomods.txt); do MF=$(cd /repo/$m && . /w/out/goenv.sh && gomodflag); (cd /repo/$m && go test $MF -json -vet=off -count=1 -timeout 25m ./...); done
