#!/bin/sh
# The repository's pinned test suite (BASELINE.json cmd); no build tag is involved.
cd /repo || exit 2
for m in $(cat /w/out/gomods.txt); do
  ( cd /repo/$m && . /w/out/goenv.sh && MF=$(gomodflag) && go test $MF -vet=off -count=1 -timeout 25m ./... ) || exit 1
done
