#!/usr/bin/env python3
"""intake_seeds.py <out-root> <Cxx> [...]: copies sub-agent deliverables <out-root>/out-Cxx/{c,d,...}
to /verif/seeded/Cxx-<letter>/, confirms each with verify_seed.py, then runs seed_eval.py."""
import sys, os, shutil, subprocess, json
root = sys.argv[1]
names = []
for pid in sys.argv[2:]:
    d = os.path.join(root, "out-" + pid)
    for letter in sorted(os.listdir(d)):
        src = os.path.join(d, letter)
        if not os.path.isdir(src) or not os.path.exists(os.path.join(src, "patch.diff")): continue
        dst = "/verif/seeded/%s-%s" % (pid, letter)
        if os.path.exists(dst): shutil.rmtree(dst)
        shutil.copytree(src, dst)
        try:
            m = json.load(open(os.path.join(dst, "meta.json")))
        except Exception as e:
            m = {"summary": "meta.json unreadable: %s" % e}
        m["property"] = pid
        m["origin"] = "independent sub-agent given only the property text (wave %s)" % os.environ.get("WAVE", "2")
        if os.environ.get("SEED_BASE"): m["base"] = os.environ["SEED_BASE"]
        json.dump(m, open(os.path.join(dst, "meta.json"), "w"), indent=1)
        names.append("%s-%s" % (pid, letter))
r = subprocess.run(["python3", "/verif/tools/verify_seed.py"] + ["/verif/seeded/" + n for n in names], capture_output=True, text=True)
print(r.stdout[-3000:], r.stderr[-2000:])
r = subprocess.run(["python3", "/verif/tools/seed_eval.py"] + names, capture_output=True, text=True)
print(r.stdout[-6000:], r.stderr[-2000:])
