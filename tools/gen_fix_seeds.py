#!/usr/bin/env python3
"""gen_fix_seeds.py: for every 'fixed' entry of known_findings.jsonl that names a /repo commit,
writes seeded/<prop>-fix-<commit>/ = the reverse of that commit's product-source change.
Re-applying it brings the defect back; the check that found it must report it again
('a fixed entry suppresses nothing')."""
import json, os, subprocess
V = "/verif"
seen = {}
for l in open(f"{V}/known_findings.jsonl"):
    d = json.loads(l)
    if d.get("status") != "fixed" or not d.get("commit"): continue
    seen.setdefault((d["property"], d["commit"]), []).append(d)
for (prop, commit), ds in sorted(seen.items()):
    diff = subprocess.run(f"git -C /repo diff {commit} {commit}^ -- . ':!*_test.go'", shell=True, capture_output=True, text=True).stdout
    if not diff.strip(): print("empty diff", commit); continue
    out = f"{V}/seeded/{prop}-fix-{commit[:7]}"
    chk = subprocess.run("git -C /repo apply --check -", shell=True, input=diff, capture_output=True, text=True)
    if chk.returncode != 0:
        print("skipped (no longer applies to HEAD):", prop, commit); continue
    os.makedirs(out, exist_ok=True)
    open(f"{out}/patch.diff", "w").write(diff)
    json.dump({"property": prop, "summary": "reverse of fix commit %s: re-introduces %s" % (commit, "; ".join(x["what"][:160] for x in ds)),
               "expected_keys": [x["key"] for x in ds], "origin": "reverse of a fix: commit in /repo", "base_commit": "HEAD"}, open(f"{out}/meta.json", "w"), indent=1)
    print(out)
